"""Evaluate one (rule set, option set): flex -> tables -> proved lock-step check
against the specification automaton; compiled scanner -> token streams ->
proved validator; table-automaton model -> token streams (correspondence)."""
import os

import scanner
import tables
from common import run


def hexs(bs):
    return bytes(bs).hex()


def rule_kinds(prog, workdir):
    """Kinds of trailing context per rule, from the extracted GenParse.rule_kind."""
    case = "(case %s\n(queries ((kinds))))\n" % scanner.sx_program(prog)
    rc, out, err = scanner.run_driver(case, workdir, name="kinds.sx", timeout=60)
    for line in out.splitlines():
        if line.startswith("kinds"):
            return line.split()[1:]
    return []


def expected_refusal(prog, flex_opts, backend, workdir, uses_reject=False):
    """Messages one of which flex must give if the manual says the combination is refused; None otherwise."""
    tbl = [o for o in flex_opts if o.startswith("-C")]
    full = any(("f" in o[2:]) for o in tbl)
    fast = any(("F" in o[2:]) for o in tbl)
    if backend == 'cxx' and fast:
        return ["Can't use -+ with -CF option"]
    if full and fast:
        return ["mutually exclusive"]
    if (full or fast) and "-I" in flex_opts:
        return ["-Cf/-CF and -I are incompatible"]
    if (full or fast) and any("m" in o[2:] for o in tbl):
        return ["don't make sense together"]
    if full or fast:
        if uses_reject:
            return ["REJECT cannot be used with -f or -F"]
        msgs = ["variable trailing context rules cannot be used with -f or -F", "%option yylineno cannot be used with REJECT"]
        rules = prog['rules']
        # a '|' action makes the trailing context of the following rule variable (flex warns about it)
        if any(rules[i].get('bar') and rules[i + 1].get('trail') is not None for i in range(len(rules) - 1)):
            return msgs
        if any(r.get('trail') not in (None, '$') for r in rules):
            if 'variable' in rule_kinds(prog, workdir):
                return msgs
    return None


def eval_case(flex, workdir, prog, spec_text, flex_opts, inputs, fuel=30000, check_lockstep=True,
              compile_scanner=True, run_scs=None, cc_extra=None, driver_timeout=120, backend='nr', uses_reject=False):
    """run_scs: list of start conditions (1-based) in which each input is scanned (default [1])."""
    res = {'problems': [], 'lockstep': [], 'streams': [], 'flex_opts': list(flex_opts)}
    os.makedirs(workdir, exist_ok=True)
    lpath = os.path.join(workdir, "s.l")
    with open(lpath, "w") as f:
        f.write(spec_text)
    import backends
    cfile = "s." + backends.BACKENDS[backend]['ext']
    rc, out, err = scanner.run_flex(flex, "s.l", cfile, flex_opts, workdir)
    res['flex_rc'] = rc
    res['flex_err'] = err.decode(errors="replace")[:2000]
    # the property excludes rule sets for which flex prints this warning (C06)
    res['dangerous'] = "dangerous trailing context" in err.decode(errors="replace")
    if rc != 0:
        exp = expected_refusal(prog, flex_opts, backend, workdir, uses_reject=uses_reject)
        res['refused'] = True
        if exp and any(m in res['flex_err'] for m in exp):
            res['refusal_documented'] = True
        else:
            res['problems'].append(('flex-error', res['flex_err'][:300]))
        return res
    exp = expected_refusal(prog, flex_opts, backend, workdir, uses_reject=uses_reject)
    if exp:
        res['problems'].append(('missing-refusal', "flex accepted a combination the manual says it refuses: expected one of %s" % exp))
    with open(os.path.join(workdir, cfile), errors="replace") as f:
        src = f.read()
    try:
        t = tables.parse_scanner(src)
        tsx = tables.tables_sexp(t, "t")
    except (tables.TableError, KeyError, IndexError) as ex:
        res['problems'].append(('tables-unreadable', repr(ex)))
        return res
    res['lastdfa'] = t.get('lastdfa')
    res['modes'] = sorted(t['modes'])
    for bad in tables.type_misfits(t)[:2]:
        res['problems'].append(('table-value-does-not-fit-its-type', bad))
    nsc = 1 + len(prog.get('scs', []))
    run_scs = run_scs or [1]
    # real scanner
    real = {}
    if compile_scanner:
        rc, out, err = scanner.compile_c(cfile, "s.exe", workdir, extra=(cc_extra or []) + ["-I" + os.path.dirname(flex)],
                                         backend=backend)
        if rc != 0:
            res['problems'].append(('compile-error', err.decode(errors="replace")[:600]))
            compile_scanner = False
    if compile_scanner:
        for ii, w in enumerate(inputs):
            ipath = os.path.join(workdir, "in%d.bin" % ii)
            with open(ipath, "wb") as f:
                f.write(bytes(w))
            for sc in run_scs:
                rc, out, err = run([os.path.join(workdir, "s.exe"), ipath, str(sc - 1)], timeout=8)
                if rc != 0:
                    res['problems'].append(('scanner-abnormal', "rc=%s sc=%d input=%s stderr=%s" % (
                        rc, sc, hexs(w), err.decode(errors="replace")[:200])))
                    real[(ii, sc)] = None
                else:
                    real[(ii, sc)] = scanner.parse_tokens(out)
    # queries for the extracted code
    queries = []
    rej = tables.is_reject(t)
    varsx = "(" + " ".join(str(v) for v in tables.var_rules(t)) + ")"
    adjx = tables.adj_sexp(t)
    res['reject_tables'] = rej
    res['var_rules'] = tables.var_rules(t)
    res['trailctx'] = {str(k): v for k, v in t['trailctx'].items()}
    if check_lockstep:
        for sc in range(1, nsc + 1):
            for bol in (0, 1):
                if rej:
                    queries.append("(lockstep_r t %s %d %d %d)" % (varsx, sc, bol, fuel))
                else:
                    queries.append("(lockstep t %d %d %d)" % (sc, bol, fuel))
    order = []
    for ii, w in enumerate(inputs):
        wsx = "(" + " ".join(str(b) for b in w) + ")"
        for sc in run_scs:
            queries.append("(viewtokens_tc t %d 1 %s %s)" % (sc, wsx, adjx))
            order.append(('view', ii, sc))
            r = real.get((ii, sc))
            if r is not None and all(isinstance(x[0], int) for x in r):
                toks = "(" + " ".join("(%d %d)" % (x[0], x[1]) for x in r) + ")"
                queries.append("(validate_o %s %d 1 %s %s)" % (scanner.owners_sx(prog), sc, wsx, toks))
                order.append(('validate', ii, sc))
    case = "(case %s\n%s\n(queries (%s)))\n" % (scanner.sx_program(prog), tsx, "\n".join(queries))
    rc, out, err = scanner.run_driver(case, workdir, timeout=driver_timeout)
    if rc == "timeout":
        # the checker ran out of time: nothing is concluded for this case (counted, never a pass)
        res['problems'].append(('inconclusive', "driver timeout"))
        return res
    if rc != 0:
        res['problems'].append(('driver-error', "rc=%s %s" % (rc, err[:300])))
        return res
    lines = out.splitlines()
    li = 0
    if check_lockstep:
        for sc in range(1, nsc + 1):
            for bol in (0, 1):
                line = lines[li] if li < len(lines) else "missing"
                li += 1
                res['lockstep'].append(line)
                parts = line.split()
                verdict = parts[4] if len(parts) > 4 else "missing"
                if verdict == "OK":
                    continue
                if verdict == "INCONCLUSIVE":
                    res['problems'].append(('inconclusive', line))
                elif verdict == "MISMATCH":
                    res['problems'].append(('lockstep-mismatch', line))
                else:
                    res['problems'].append(('lockstep-' + verdict.lower(), line))
    views = {}
    for kind, ii, sc in order:
        line = lines[li] if li < len(lines) else ""
        li += 1
        if kind == 'view':
            views[(ii, sc)] = scanner.parse_driver_tokens(line.split(" ", 2)[2] if line.count(" ") >= 2 else "")
        else:
            okv = line.strip() == "validate OK"
            w = inputs[ii]
            r = real[(ii, sc)]
            # yytext must be the corresponding slice of the input
            pos = 0
            text_ok = True
            for (rr, ln, h) in r:
                if scanner.fnv(w[pos:pos + ln]) != h:
                    text_ok = False
                pos += ln
            res['streams'].append({'input': hexs(w), 'sc': sc, 'real': [(a, b) for a, b, _ in r], 'valid': okv, 'text_ok': text_ok})
            if res['dangerous']:
                pass
            elif not okv:
                res['problems'].append(('token-mismatch', "sc=%d input=%s real=%s" % (sc, hexs(w), [(a, b) for a, b, _ in r][:40])))
            elif not text_ok:
                res['problems'].append(('yytext-mismatch', "sc=%d input=%s" % (sc, hexs(w))))
    # correspondence of the table-interpreter model with the compiled scanner
    for (ii, sc), v in views.items():
        r = real.get((ii, sc))
        if r is None or not all(isinstance(x[0], int) for x in r):
            if r is not None:
                res['problems'].append(('scanner-output-garbled', str(r[:3])))
            continue
        rr = [(a, b) for a, b, _ in r]
        own = scanner.owners(prog)
        if rr != [(own.get(x[0], x[0]), x[1]) for x in v]:
            res['problems'].append(('model-mismatch', "sc=%d input=%s real=%s model=%s" % (sc, hexs(inputs[ii]), rr[:30], v[:30])))
    return res


# ------------------------------------------------------------------ REJECT programs
def policy_c(pol, i, rej="REJECT", leng="yyleng"):
    k = pol[0]
    if k == 'never':
        return ""
    if k == 'always':
        return " %s;" % rej
    if k == 'lengt':
        return " if (%s > %d) %s;" % (leng, pol[1], rej)
    if k == 'first':
        return " if (cnt[%d]++ < %d) %s;" % (i, pol[1], rej)
    raise ValueError(k)


def policy_sx(pols):
    out = []
    for i, p in sorted(pols.items()):
        out.append("(%d %s)" % (i, " ".join(str(x) for x in p)))
    return "(" + " ".join(out) + ")"


def _split_lines(out):
    """Output of a scanner whose actions print 'L<yylineno>' before their event: (events only, line per event or None)."""
    ev, lns, pending = [], [], None
    for line in out.decode(errors="replace").splitlines():
        if line.startswith("L") and line[1:].lstrip("-").isdigit():
            pending = int(line[1:])
        else:
            ev.append(line)
            lns.append(pending)
            pending = None
    return ("\n".join(ev) + ("\n" if ev else "")).encode(), lns


def eval_reject_case(flex, workdir, prog, policies, rng, flex_opts, inputs, backend='nr', spelling='REJECT',
                     fuel=30000, run_scs=None, cc_extra=None, extra_options=None, lineno=False):
    """policies: {rule number: policy tuple}.  The scanner prints an event for every action executed."""
    import backends
    res = {'problems': [], 'lockstep': [], 'streams': [], 'flex_opts': list(flex_opts)}
    os.makedirs(workdir, exist_ok=True)
    nrules = len(prog['rules'])
    rej = spelling
    leng = "yyleng"
    if backend == 'c99':          # the c99 back end has no legacy macros
        rej = "yyreject()"
        leng = "yyget_leng(yyscanner)"
    actions = {}
    for i in range(nrules):
        actions[i] = "%stok(%d);%s" % ("ln(); " if lineno else "", i + 1, policy_c(policies.get(i + 1, ('never',)), i + 1, rej, leng))
    extra_top = "static int cnt[%d];\n" % (nrules + 3)
    options = list(extra_options or [])
    if lineno:
        # the action reports the line number it sees before its event (property C09)
        options.append("yylineno")
        extra_top += '#define ln() printf("L%%d\\n", (int) (%s))\n' % ("yyget_lineno(yyscanner)" if backend in ('c99', 'go') else "yylineno")
    if prog.get('caseins'):
        options.append("case-insensitive")
    text = scanner.make_spec(prog, rng, options=options, actions=actions, extra_top=extra_top, backend=backend)
    res['text'] = text
    with open(os.path.join(workdir, "s.l"), "w") as f:
        f.write(text)
    cfile = "s." + backends.BACKENDS[backend]['ext']
    rc, out, err = scanner.run_flex(flex, "s.l", cfile, flex_opts, workdir)
    res['flex_rc'] = rc
    res['flex_err'] = err.decode(errors="replace")[:2000]
    uses = any(p[0] != 'never' for p in policies.values())
    exp = expected_refusal(prog, flex_opts, backend, workdir, uses_reject=uses)
    if rc != 0:
        res['refused'] = True
        if exp and any(m in res['flex_err'] for m in exp):
            res['refusal_documented'] = True
        else:
            res['problems'].append(('flex-error', res['flex_err'][:300]))
        return res
    if exp:
        res['problems'].append(('missing-refusal', "expected one of %s" % exp))
        return res
    with open(os.path.join(workdir, cfile), errors="replace") as f:
        src = f.read()
    try:
        t = tables.parse_scanner(src)
        tsx = tables.tables_sexp(t, "t")
    except (tables.TableError, KeyError, IndexError) as ex:
        res['problems'].append(('tables-unreadable', repr(ex)))
        return res
    res['lastdfa'] = t.get('lastdfa')
    res['reject_tables'] = tables.is_reject(t)
    res['dangerous'] = "dangerous trailing context" in res['flex_err']
    var = tables.var_rules(t) if tables.is_reject(t) else []
    res['var_rules'] = var
    if uses and not tables.is_reject(t):
        res['problems'].append(('reject-not-detected', "an action uses %s but the scanner was generated without REJECT support" % spelling))
    rc, out, err = scanner.compile_c(cfile, "s.exe", workdir, extra=(cc_extra or []) + ["-I" + os.path.dirname(flex)], backend=backend)
    if rc != 0:
        res['problems'].append(('compile-error', err.decode(errors="replace")[:600]))
        return res
    nsc = 1 + len(prog.get('scs', []))
    run_scs = run_scs or [1]
    queries = []
    if tables.is_reject(t):
        varsx = "(" + " ".join(str(v) for v in tables.var_rules(t)) + ")"
        for sc in range(1, nsc + 1):
            for bol in (0, 1):
                queries.append("(lockstep_r t %s %d %d %d)" % (varsx, sc, bol, fuel))
    nls = len(queries)
    order = []
    real = {}
    psx = policy_sx(policies)
    for ii, w in enumerate(inputs):
        ipath = os.path.join(workdir, "in%d.bin" % ii)
        with open(ipath, "wb") as f:
            f.write(bytes(w))
        wsx = "(" + " ".join(str(b) for b in w) + ")"
        for sc in run_scs:
            rc, out, err = run([os.path.join(workdir, "s.exe"), ipath, str(sc - 1)], timeout=8)
            if rc != 0:
                res['problems'].append(('scanner-abnormal', "rc=%s sc=%d input=%s stderr=%s" % (rc, sc, hexs(w), err.decode(errors="replace")[:200])))
                continue
            if lineno:
                out, lns = _split_lines(out)
                res.setdefault('linenos', {})[(ii, sc)] = lns
                queries.append("(rejtokens_ln %d 1 %s %s)" % (sc, wsx, psx))
                order.append(('lines', ii, sc))
            real[(ii, sc)] = scanner.parse_tokens(out)
            if var:
                # variable trailing context: the text handed to an action is judged by the proved validator
                # (any documented head of the match, coq/C07VarProofs.v), the walk through the alternatives stays exact
                evs = "(" + " ".join("(%d %d)" % (x[0], x[1]) for x in real[(ii, sc)] if isinstance(x[0], int)) + ")"
                queries.append("(rejvalidate %d 1 %s %s %s)" % (sc, wsx, psx, evs))
                order.append(('validate', ii, sc))
            else:
                queries.append("(rejtokens spec %d 1 %s %s ())" % (sc, wsx, psx))
                order.append(('spec', ii, sc))
            if tables.is_reject(t):
                queries.append("(%s t %d 1 %s %s %s)" % ("rejtokens_tc" if var else "rejtokens", sc, wsx, psx, tables.adj_sexp(t)))
                order.append(('view', ii, sc))
    case = "(case %s\n%s\n(queries (%s)))\n" % (scanner.sx_program(prog), tsx, "\n".join(queries))
    rc, out, err = scanner.run_driver(case, workdir, timeout=300)
    if rc != 0:
        res['problems'].append(('driver-error', "rc=%s %s" % (rc, err[:300])))
        return res
    lines = out.splitlines()
    for line in lines[:nls]:
        res['lockstep'].append(line)
        parts = line.split()
        verdict = parts[4] if len(parts) > 4 else "missing"
        if verdict == "OK":
            continue
        res['problems'].append(('inconclusive' if verdict == "INCONCLUSIVE" else 'lockstep-' + verdict.lower(), line))
    for (kind, ii, sc), line in zip(order, lines[nls:]):
        r = real[(ii, sc)]
        rr = [(a, b) for a, b, _ in r]
        if kind == 'lines':
            exp = [tuple(int(x) for x in t.split(":")) for t in line.split()[1:]]
            got = res['linenos'][(ii, sc)]
            res['lines_compared'] = res.get('lines_compared', 0) + sum(1 for g in got if g is not None)
            if var or res['dangerous']:
                continue
            if [(a, b) for a, b, _ in exp] == rr:
                bad = [(i, e, g) for i, (e, g) in enumerate(zip(exp, got)) if g is not None and g != e[2]]
                if bad:
                    i, e, g = bad[0]
                    res['problems'].append(('lineno-mismatch', "sc=%d input=%s event %d (rule %d, yyleng %d): the action saw yylineno %d, "
                                            "documented %d (1 + newlines consumed before the token + newlines of yytext); events=%s" % (
                                                sc, hexs(inputs[ii]), i, e[0], e[1], g, e[2], rr[:i + 1][-6:])))
            continue
        if kind == 'validate':
            okv = line.strip() == "rejvalidate x OK"
            res['streams'].append({'input': hexs(inputs[ii]), 'sc': sc, 'real': rr, 'valid': okv, 'text_ok': True, 'variable_trailing': True})
            if not okv and not res['dangerous']:
                res['problems'].append(('token-mismatch', "sc=%d input=%s real=%s: not a walk through the alternatives in the documented order "
                                        "with documented heads (variable trailing context)" % (sc, hexs(inputs[ii]), rr[:30])))
            continue
        toks = scanner.parse_driver_tokens(line.split(" ", 2)[2] if line.count(" ") >= 2 else "")
        if kind == 'spec':
            okv = rr == [tuple(x) for x in toks]
            res['streams'].append({'input': hexs(inputs[ii]), 'sc': sc, 'real': rr, 'valid': okv, 'text_ok': True, 'expected': toks[:60]})
            if not okv:
                res['problems'].append(('token-mismatch', "sc=%d input=%s real=%s expected=%s" % (sc, hexs(inputs[ii]), rr[:30], toks[:30])))
        else:
            if rr != [tuple(x) for x in toks]:
                res['problems'].append(('model-mismatch', "sc=%d input=%s real=%s model=%s" % (sc, hexs(inputs[ii]), rr[:30], toks[:30])))
    return res
