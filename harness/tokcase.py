"""Evaluate one (rule set, option set): flex -> tables -> proved lock-step check
against the specification automaton; compiled scanner -> token streams ->
proved validator; table-automaton model -> token streams (correspondence)."""
import os

import scanner
import tables
from common import run


def hexs(bs):
    return bytes(bs).hex()


def eval_case(flex, workdir, prog, spec_text, flex_opts, inputs, fuel=30000, check_lockstep=True,
              compile_scanner=True, run_scs=None, cc_extra=None, driver_timeout=300, backend='nr'):
    """run_scs: list of start conditions (1-based) in which each input is scanned (default [1])."""
    res = {'problems': [], 'lockstep': [], 'streams': [], 'flex_opts': list(flex_opts)}
    os.makedirs(workdir, exist_ok=True)
    lpath = os.path.join(workdir, "s.l")
    with open(lpath, "w") as f:
        f.write(spec_text)
    import backends
    cfile = "s." + backends.BACKENDS[backend]['ext']
    rc, out, err = scanner.run_flex(flex, "s.l", cfile, flex_opts, workdir)
    res['flex_rc'] = rc
    res['flex_err'] = err.decode(errors="replace")[:2000]
    # the property excludes rule sets for which flex prints this warning (C06)
    res['dangerous'] = "dangerous trailing context" in err.decode(errors="replace")
    if rc != 0:
        res['problems'].append(('flex-error', res['flex_err'][:300]))
        return res
    with open(os.path.join(workdir, cfile), errors="replace") as f:
        src = f.read()
    try:
        t = tables.parse_scanner(src)
        tsx = tables.tables_sexp(t, "t")
    except (tables.TableError, KeyError, IndexError) as ex:
        res['problems'].append(('tables-unreadable', repr(ex)))
        return res
    res['lastdfa'] = t.get('lastdfa')
    res['modes'] = sorted(t['modes'])
    nsc = 1 + len(prog.get('scs', []))
    run_scs = run_scs or [1]
    # real scanner
    real = {}
    if compile_scanner:
        rc, out, err = scanner.compile_c(cfile, "s.exe", workdir, extra=(cc_extra or []) + ["-I" + os.path.dirname(flex)],
                                         backend=backend)
        if rc != 0:
            res['problems'].append(('compile-error', err.decode(errors="replace")[:600]))
            compile_scanner = False
    if compile_scanner:
        for ii, w in enumerate(inputs):
            ipath = os.path.join(workdir, "in%d.bin" % ii)
            with open(ipath, "wb") as f:
                f.write(bytes(w))
            for sc in run_scs:
                rc, out, err = run([os.path.join(workdir, "s.exe"), ipath, str(sc - 1)], timeout=20)
                if rc != 0:
                    res['problems'].append(('scanner-abnormal', "rc=%s sc=%d input=%s stderr=%s" % (
                        rc, sc, hexs(w), err.decode(errors="replace")[:200])))
                    real[(ii, sc)] = None
                else:
                    real[(ii, sc)] = scanner.parse_tokens(out)
    # queries for the extracted code
    queries = []
    rej = tables.is_reject(t)
    varsx = "(" + " ".join(str(v) for v in tables.var_rules(t)) + ")"
    adjx = tables.adj_sexp(t)
    res['reject_tables'] = rej
    res['var_rules'] = tables.var_rules(t)
    res['trailctx'] = {str(k): v for k, v in t['trailctx'].items()}
    if check_lockstep:
        for sc in range(1, nsc + 1):
            for bol in (0, 1):
                if rej:
                    queries.append("(lockstep_r t %s %d %d %d)" % (varsx, sc, bol, fuel))
                else:
                    queries.append("(lockstep t %d %d %d)" % (sc, bol, fuel))
    order = []
    for ii, w in enumerate(inputs):
        wsx = "(" + " ".join(str(b) for b in w) + ")"
        for sc in run_scs:
            queries.append("(viewtokens_tc t %d 1 %s %s)" % (sc, wsx, adjx))
            order.append(('view', ii, sc))
            r = real.get((ii, sc))
            if r is not None and all(isinstance(x[0], int) for x in r):
                toks = "(" + " ".join("(%d %d)" % (x[0], x[1]) for x in r) + ")"
                queries.append("(validate %d 1 %s %s)" % (sc, wsx, toks))
                order.append(('validate', ii, sc))
    case = "(case %s\n%s\n(queries (%s)))\n" % (scanner.sx_program(prog), tsx, "\n".join(queries))
    rc, out, err = scanner.run_driver(case, workdir, timeout=driver_timeout)
    if rc != 0:
        res['problems'].append(('driver-error', "rc=%s %s" % (rc, err[:300])))
        return res
    lines = out.splitlines()
    li = 0
    if check_lockstep:
        for sc in range(1, nsc + 1):
            for bol in (0, 1):
                line = lines[li] if li < len(lines) else "missing"
                li += 1
                res['lockstep'].append(line)
                parts = line.split()
                verdict = parts[4] if len(parts) > 4 else "missing"
                if verdict == "OK":
                    continue
                if verdict == "INCONCLUSIVE":
                    res['problems'].append(('inconclusive', line))
                elif verdict == "MISMATCH":
                    res['problems'].append(('lockstep-mismatch', line))
                else:
                    res['problems'].append(('lockstep-' + verdict.lower(), line))
    views = {}
    for kind, ii, sc in order:
        line = lines[li] if li < len(lines) else ""
        li += 1
        if kind == 'view':
            views[(ii, sc)] = scanner.parse_driver_tokens(line.split(" ", 2)[2] if line.count(" ") >= 2 else "")
        else:
            okv = line.strip() == "validate OK"
            w = inputs[ii]
            r = real[(ii, sc)]
            # yytext must be the corresponding slice of the input
            pos = 0
            text_ok = True
            for (rr, ln, h) in r:
                if scanner.fnv(w[pos:pos + ln]) != h:
                    text_ok = False
                pos += ln
            res['streams'].append({'input': hexs(w), 'sc': sc, 'real': [(a, b) for a, b, _ in r], 'valid': okv, 'text_ok': text_ok})
            if res['dangerous']:
                pass
            elif not okv:
                res['problems'].append(('token-mismatch', "sc=%d input=%s real=%s" % (sc, hexs(w), [(a, b) for a, b, _ in r][:40])))
            elif not text_ok:
                res['problems'].append(('yytext-mismatch', "sc=%d input=%s" % (sc, hexs(w))))
    # correspondence of the table-interpreter model with the compiled scanner
    for (ii, sc), v in views.items():
        r = real.get((ii, sc))
        if r is None or not all(isinstance(x[0], int) for x in r):
            if r is not None:
                res['problems'].append(('scanner-output-garbled', str(r[:3])))
            continue
        rr = [(a, b) for a, b, _ in r]
        if rr != [tuple(x) for x in v]:
            res['problems'].append(('model-mismatch', "sc=%d input=%s real=%s model=%s" % (sc, hexs(inputs[ii]), rr[:30], v[:30])))
    return res
