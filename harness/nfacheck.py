"""The NFA flex builds (nfa.c, the machine-building reductions of parse.y), as printed by `flex -T`, against coq/NfaSim.v:
the extracted subset simulation of that NFA is related to the specification automaton by the proved lock-step checker
(C01_nfa_accepts_the_documented_language): the verdict holds for every input word.  No scanner is compiled unless a
mismatch has to be confirmed on the real scanner."""
import os
import re

import engine
import rulesets
import scanner
import tokcase
from common import Rng

STATE_RE = re.compile(r"^state #\s*(\d+)\t\s*(-?\d+):\s*(-?\d+),\s*(-?\d+)(?:\s+\[(\d+)\])?\s*$")


def nfa_cases(rng, tier):
    n = 120 if tier == "quick" else 2500
    cases = []
    for i in range(n):
        r = rng.fork("nfa%d" % i)
        prog = rulesets.gen_program(r, trailing=False, max_scs=0, caseins=False, bol_pct=0, csize=r.pick([256, 256, 128]),
                                    depth=r.pick([2, 3, 3, 4]))
        if i % 3 == 0:
            # counted repetitions of groups that end in optional / closed parts: copysingl, dupmachine, mkrep, mkopt, mkposcl
            body = r.pick([('cat', ('c', 97), ('opt', ('c', 98))), ('alt', ('c', 97), ('str', [98, 99])), ('plus', ('cls', ('set', False, [('rg', 97, 99)]))),
                           ('cat', ('star', ('c', 97)), ('c', 98)), ('opt', ('alt', ('c', 97), ('c', 98))), ('any',)])
            lo = r.rng(1, 3)
            rep = r.pick([('reprange', body, lo, lo + r.rng(0, 3)), ('rep', body, lo + 1), ('repmin', body, lo), ('reprange', body, 0, r.rng(1, 3))])
            prog['rules'].insert(r.below(len(prog['rules']) + 1),
                                 {'head': ('cat', rep, ('c', r.pick([99, 122]))) if r.chance(60) else rep, 'bol': False, 'scs': None, 'trail': None})
        opts = list(r.pick([[], ["-Cf"], ["-Ce"], ["-Cm"], ["-CF"], ["-C"]]))
        cases.append({'id': "n%d" % i, 'kind': 'nfa', 'prog': prog, 'flex_opts': opts + ["-8" if prog['csize'] == 256 else "-7"],
                      'seed': r.s, 'text': '', 'focus': ['nfa'], 'extra_options': [], 'inputs': [], 'backend': 'nr'})
    return cases


def class_table(prog):
    """The character classes in the order flex numbers them: every bracket expression gets a new number when it is scanned
    (the re-use of classes by their text is switched off in scan.l), a definition is re-scanned where it is used, the first
    '.' creates two classes (all but newline, all), {-} / {+} create the result after their operands, the default rule adds
    the last one.  Contents come from the specification side (scanner.cexpr_members mirrors Pat.cexpr_set)."""
    csize = prog['csize']
    out = []
    state = {'any': False}

    def cexpr(e, fl_i):
        if e[0] == 'set':
            out.append((1 if e[1] else 0, scanner.cexpr_members(('set', False, e[2]), fl_i, csize)))
        else:
            cexpr(e[1], fl_i)
            cexpr(e[2], fl_i)
            out.append((0, scanner.cexpr_members(e, fl_i, csize)))

    def walk(p, fl_i):
        k = p[0]
        if k in ('c', 'str'):
            return
        if k == 'any':
            if not state['any']:
                state['any'] = True
                out.append((1, [10]))
                out.append((1, []))
            return
        if k == 'cls':
            cexpr(p[1], fl_i)
        elif k in ('cat', 'alt'):
            walk(p[1], fl_i)
            walk(p[2], fl_i)
        elif k in ('star', 'plus', 'opt', 'rep', 'repmin', 'reprange'):
            walk(p[1], fl_i)
        elif k == 'flags':
            walk(p[5], (fl_i or bool(p[1])) and not p[2])
        elif k == 'name':
            walk(p[2], fl_i)
        else:
            raise ValueError(k)

    for rl in prog['rules']:
        walk(rl['head'], bool(prog.get('caseins')))
    out.append((1, []))
    return out


def parse_dump(err):
    """(start state, [(sym, t1, t2, acc)]) from the stderr of flex -T, or None"""
    m = re.search(r"beginning dump of nfa with start state (\d+)", err)
    if not m:
        return None
    start = int(m.group(1))
    body = err[m.end():]
    end = body.find("end of dump")
    if end < 0:
        return None
    nodes = []
    for line in body[:end].splitlines():
        mm = STATE_RE.match(line)
        if not mm:
            continue
        num = int(mm.group(1))
        if num != len(nodes) + 1:
            return None
        nodes.append((int(mm.group(2)), int(mm.group(3)), int(mm.group(4)), int(mm.group(5) or 0)))
    return start, nodes


def nfa_worker(case):
    wd = os.path.join(engine._ROOT, "c%s" % case['id'])
    os.makedirs(wd, exist_ok=True)
    res = {'problems': [], 'lockstep': [], 'streams': [], 'id': case['id'], 'nfa_checked': 0, 'nfa_states': 0, 'nfa_pairs': 0}
    prog = case['prog']
    try:
        text = scanner.make_spec(prog, Rng(case['seed']).fork("print"))
        res['text'] = text
        with open(os.path.join(wd, "s.l"), "w") as f:
            f.write(text)
        rc, out, err = scanner.run_flex(engine._FLEX, "s.l", "s.c", case['flex_opts'] + ["-T"], wd)
        errt = err.decode(errors='replace')
        if rc != 0:
            exp = tokcase.expected_refusal(prog, case['flex_opts'], 'nr', wd)
            if not (exp and any(m in errt for m in exp)):
                res['problems'].append(('flex-error', errt[-300:]))
            return res
        d = parse_dump(errt)
        if d is None:
            res['problems'].append(('nfa-dump-unreadable', "flex -T printed no readable NFA dump: %s" % errt[:200]))
            return res
        start, nodes = d
        ccls = class_table(prog)
        used = max([-n[0] for n in nodes if n[0] < 0] or [0])
        if used > len(ccls):
            res['problems'].append(('harness-error', "the dump names class %d, the pattern walk found %d classes" % (used, len(ccls))))
            return res
        sx = "(nfa (start %d) (nodes %s) (ccls %s))" % (
            start, " ".join("(%d %d %d %d)" % n for n in nodes),
            " ".join("(%d (%s))" % (ng, " ".join(str(b) for b in bs)) for ng, bs in ccls))
        rc, out, err = scanner.run_driver("(case %s\n%s\n(queries ((nfacheck %d))))\n" % (scanner.sx_program(prog), sx, case.get('fuel', 60000)),
                                          wd, timeout=120)
        if rc != 0:
            res['problems'].append(('driver-error', "rc=%s %s" % (rc, err[:300])))
            return res
        line = next((l for l in out.splitlines() if l.startswith("nfacheck")), "nfacheck ?")
        res['nfa_line'] = line
        res['nfa_states'] = len(nodes)
        if line.startswith("nfacheck OK"):
            res['nfa_checked'] = 1
            res['nfa_pairs'] = int(line.split("pairs=")[1].split()[0])
        elif "INCONCLUSIVE" in line:
            res['problems'].append(('inconclusive', line))
        else:
            m = re.search(r"input=\[([^\]]*)\]", line)
            word = [int(x) for x in m.group(1).split()] if m else None
            res['witness'] = word
            failing = confirm(case, wd, text, word) if word is not None else None
            res['failing_input'] = failing
            res['problems'].append(('nfa-mismatch', "the NFA flex built does not accept the documented language (premise of "
                                    "C01_nfa_accepts_the_documented_language fails): %s%s" % (
                                        line[:400], ("; the compiled scanner leaves the documented tokenisation on input " + bytes(failing).hex())
                                        if failing else "")))
    except Exception as ex:
        import traceback
        res['problems'].append(('harness-error', repr(ex) + traceback.format_exc()[-400:]))
    return res


def confirm(case, wd, text, word):
    """Scan the distinguishing word (alone, and followed by bytes that end the token) with the compiled scanner and compare
    with the specification's tokenisation."""
    inputs = [word, word + [10], word + [0x7e], word + word]
    # the word may only distinguish the automata after more input (one of them can still reach a match): continue it with
    # the tails of sample matches of every rule
    rng = Rng(case['seed']).fork("confirm")
    for rl in case['prog']['rules']:
        for _ in range(3):
            try:
                smp = scanner.sample(rl['head'], rng, False, False, case['prog']['csize'])
            except Exception:
                continue
            for j in range(len(smp)):
                inputs.append(word + smp[j:])
    seen = set()
    inputs = [w for w in inputs if w and not (tuple(w) in seen or seen.add(tuple(w)))][:120]
    try:
        r = tokcase.eval_case(engine._FLEX, os.path.join(wd, "confirm"), case['prog'], text, case['flex_opts'], inputs,
                              check_lockstep=False, run_scs=[1], backend='nr')
    except Exception:
        return None
    for st in r.get('streams', []):
        if st.get('ok') is False or st.get('mismatch'):
            return st.get('input')
    for kind, msg in r.get('problems', []):
        if kind in ('token-mismatch', 'yytext-mismatch', 'scanner-abnormal'):
            m = re.search(r"input=([0-9a-f]*)", msg)
            return list(bytes.fromhex(m.group(1))) if m and m.group(1) else word
    return None


def judge_nfa(ck, cases, results, stats):
    mine = [(c, r) for c, r in zip(cases, results) if c.get('kind') == 'nfa']
    stats['nfa_checked'] = sum(r.get('nfa_checked', 0) for _, r in mine)
    stats['nfa_states_total'] = sum(r.get('nfa_states', 0) for _, r in mine if r.get('nfa_checked'))
    stats['nfa_pairs_checked'] = sum(r.get('nfa_pairs', 0) for _, r in mine)
    for c, r in mine:
        c['text'] = r.get('text', '')
        for kind, msg in r['problems']:
            stats.setdefault('problem_kinds', {})
            stats['problem_kinds'][kind] = stats['problem_kinds'].get(kind, 0) + 1
        probs = [p for p in r['problems'] if p[0] != 'inconclusive']
        if not probs:
            continue
        kind, msg = probs[0]
        fi = r.get('failing_input')
        ck.violation("%s:%s" % (kind, engine.prog_key(c)), msg[:700],
                     {'spec': c['text'], 'flex_opts': c['flex_opts'] + ["-T"],
                      'theorem': 'C01_nfa_accepts_the_documented_language (premise check_view (nview nfa) = true)' if kind == 'nfa-mismatch' else None,
                      'distinguishing_word_hex': bytes(r['witness']).hex() if r.get('witness') is not None else None,
                      'input_hex': bytes(fi).hex() if fi else None,
                      'detail': [list(p) for p in r['problems'][:3]],
                      'how': "flex <opts> -T -o s.c s.l prints the NFA on stderr; extract/flexv_driver (query nfacheck) relates its subset "
                             "simulation to the specification automaton; the distinguishing word is then scanned by the compiled scanner"},
                     no_input=(kind != 'nfa-mismatch' or not fi))
