"""The NFA flex builds (nfa.c, the machine-building reductions of parse.y), as printed by `flex -T`, against coq/NfaSim.v:
the extracted subset simulation of that NFA is related to the specification automaton by the proved lock-step checker
(C01_nfa_accepts_the_documented_language): the verdict holds for every input word.  No scanner is compiled unless a
mismatch has to be confirmed on the real scanner."""
import os
import re

import engine
import rulesets
import scanner
import tokcase
from common import Rng

STATE_RE = re.compile(r"^state #\s*(\d+)\t\s*(-?\d+):\s*(-?\d+),\s*(-?\d+)(?:\s+\[(\d+)\])?\s*$")


def nfa_cases(rng, tier):
    n = 120 if tier == "quick" else 2500
    cases = []
    for i in range(n):
        r = rng.fork("nfa%d" % i)
        prog = rulesets.gen_program(r, trailing=False, max_scs=0, caseins=False, bol_pct=0, csize=r.pick([256, 256, 128]),
                                    depth=r.pick([2, 3, 3, 4]))
        if i % 3 == 0:
            # counted repetitions of groups that end in optional / closed parts: copysingl, dupmachine, mkrep, mkopt, mkposcl
            body = r.pick([('cat', ('c', 97), ('opt', ('c', 98))), ('alt', ('c', 97), ('str', [98, 99])), ('plus', ('cls', ('set', False, [('rg', 97, 99)]))),
                           ('cat', ('star', ('c', 97)), ('c', 98)), ('opt', ('alt', ('c', 97), ('c', 98))), ('any',)])
            lo = r.rng(1, 3)
            rep = r.pick([('reprange', body, lo, lo + r.rng(0, 3)), ('rep', body, lo + 1), ('repmin', body, lo), ('reprange', body, 0, r.rng(1, 3))])
            prog['rules'].insert(r.below(len(prog['rules']) + 1),
                                 {'head': ('cat', rep, ('c', r.pick([99, 122]))) if r.chance(60) else rep, 'bol': False, 'scs': None, 'trail': None})
        opts = list(r.pick([[], ["-Cf"], ["-Ce"], ["-Cm"], ["-CF"], ["-C"]]))
        cases.append({'id': "n%d" % i, 'kind': 'nfa', 'prog': prog, 'flex_opts': opts + ["-8" if prog['csize'] == 256 else "-7"],
                      'seed': r.s, 'text': '', 'focus': ['nfa'], 'extra_options': [], 'inputs': [], 'backend': 'nr'})
    return cases


def class_table(prog):
    """The character classes in the order flex numbers them: every bracket expression gets a new number when it is scanned
    (the re-use of classes by their text is switched off in scan.l), a definition is re-scanned where it is used, the first
    '.' creates two classes (all but newline, all), {-} / {+} create the result after their operands, the default rule adds
    the last one.  Contents come from the specification side (scanner.cexpr_members mirrors Pat.cexpr_set)."""
    csize = prog['csize']
    out = []
    state = {'any': False}

    def cexpr(e, fl_i):
        if e[0] == 'set':
            out.append((1 if e[1] else 0, scanner.cexpr_members(('set', False, e[2]), fl_i, csize)))
        else:
            cexpr(e[1], fl_i)
            cexpr(e[2], fl_i)
            out.append((0, scanner.cexpr_members(e, fl_i, csize)))

    def walk(p, fl_i):
        k = p[0]
        if k in ('c', 'str'):
            return
        if k == 'any':
            if not state['any']:
                state['any'] = True
                out.append((1, [10]))
                out.append((1, []))
            return
        if k == 'cls':
            cexpr(p[1], fl_i)
        elif k in ('cat', 'alt'):
            walk(p[1], fl_i)
            walk(p[2], fl_i)
        elif k in ('star', 'plus', 'opt', 'rep', 'repmin', 'reprange'):
            walk(p[1], fl_i)
        elif k == 'flags':
            walk(p[5], (fl_i or bool(p[1])) and not p[2])
        elif k == 'name':
            walk(p[2], fl_i)
        else:
            raise ValueError(k)

    for rl in prog['rules']:
        walk(rl['head'], bool(prog.get('caseins')))
    out.append((1, []))
    return out


def parse_dump(err):
    """(start state, [(sym, t1, t2, acc)]) from the stderr of flex -T, or None"""
    m = re.search(r"beginning dump of nfa with start state (\d+)", err)
    if not m:
        return None
    start = int(m.group(1))
    body = err[m.end():]
    end = body.find("end of dump")
    if end < 0:
        return None
    nodes = []
    for line in body[:end].splitlines():
        mm = STATE_RE.match(line)
        if not mm:
            continue
        num = int(mm.group(1))
        if num != len(nodes) + 1:
            return None
        nodes.append((int(mm.group(2)), int(mm.group(3)), int(mm.group(4)), int(mm.group(5) or 0)))
    return start, nodes


def parse_dfa_dump(err):
    """({(state, sym): target}, {state: accepting number}) from the 'DFA Dump:' part of flex -T, or None"""
    i = err.find("DFA Dump:")
    if i < 0:
        return None
    trans, acc = {}, {}
    cur = None
    for line in err[i:].splitlines():
        m = re.match(r"^state # (\d+):\s*$", line)
        if m:
            cur = int(m.group(1))
            continue
        m = re.match(r"^\t(\d+)\t(\d+)\s*$", line)
        if m and cur is not None:
            trans[(cur, int(m.group(1)))] = int(m.group(2))
            continue
        m = re.match(r"^state # (\d+) accepts: \[(\d+)\]\s*$", line)
        if m:
            acc[int(m.group(1))] = int(m.group(2))
            cur = None
            continue
        if line.startswith("Equivalence Classes") or line.startswith("Meta-Equivalence"):
            break
    return trans, acc


def nfa_worker(case):
    wd = os.path.join(engine._ROOT, "c%s" % case['id'])
    os.makedirs(wd, exist_ok=True)
    res = {'problems': [], 'lockstep': [], 'streams': [], 'id': case['id'], 'nfa_checked': 0, 'nfa_states': 0, 'nfa_pairs': 0}
    prog = case['prog']
    try:
        text = scanner.make_spec(prog, Rng(case['seed']).fork("print"))
        res['text'] = text
        with open(os.path.join(wd, "s.l"), "w") as f:
            f.write(text)
        rc, out, err = scanner.run_flex(engine._FLEX, "s.l", "s.c", case['flex_opts'] + ["-T"], wd)
        errt = err.decode(errors='replace')
        if rc != 0:
            exp = tokcase.expected_refusal(prog, case['flex_opts'], 'nr', wd)
            if not (exp and any(m in errt for m in exp)):
                res['problems'].append(('flex-error', errt[-300:]))
            return res
        d = parse_dump(errt)
        if d is None:
            res['problems'].append(('nfa-dump-unreadable', "flex -T printed no readable NFA dump: %s" % errt[:200]))
            return res
        start, nodes = d
        if len(nodes) > 300:
            res['problems'].append(('inconclusive', "NFA of %d states not simulated" % len(nodes)))
            return res
        ccls = class_table(prog)
        used = max([-n[0] for n in nodes if n[0] < 0] or [0])
        if used > len(ccls):
            res['problems'].append(('harness-error', "the dump names class %d, the pattern walk found %d classes" % (used, len(ccls))))
            return res
        sx = "(nfa (start %d) (nodes %s) (ccls %s))" % (
            start, " ".join("(%d %d %d %d)" % n for n in nodes),
            " ".join("(%d (%s))" % (ng, " ".join(str(b) for b in bs)) for ng, bs in ccls))
        # the DFA of dfa.c before compression and the equivalence classes of ecs.c, from the same run
        queries = ["(nfacheck %d)" % case.get('fuel', 60000)]
        dd = parse_dfa_dump(errt)
        with open(os.path.join(wd, "s.c"), errors="replace") as f:
            import tables
            tt = tables.parse_scanner(f.read())
        yyec = (tt['arrays'].get('yy_ec') or {}).get('data')
        csize = prog['csize']
        nul = (tt.get('defines') or {}).get('YY_NUL_EC')
        if yyec and len(yyec) >= csize:
            ec = [int(x) for x in yyec[:256]] + [0] * (256 - len(yyec[:256]))
        else:
            ec = [csize] + list(range(1, 256))          # no equivalence classes: a byte is its own symbol, NUL is symbol csize
        if nul is not None:
            ec[0] = int(nul)                            # the symbol of NUL is YY_NUL_EC (yy_ec[0] is not used by the scanner)
        if dd is not None and dd[1]:           # (-CF prints no accepting numbers: nothing to judge the printed DFA by)
            trans, acc = dd
            width = max([c for (_, c) in trans] + [max(ec)]) + 1
            sx += "\n(dfa (width %d) (trans %s) (acc %s) (ec %s))" % (
                width, " ".join("(%d %d %d)" % (s_, c_, t_) for (s_, c_), t_ in sorted(trans.items())),
                " ".join("(%d %d)" % kv for kv in sorted(acc.items())), " ".join(str(x) for x in ec))
            queries += ["(eccheck)", "(dfacheck %d)" % case.get('fuel', 60000)]
        rc, out, err = scanner.run_driver("(case %s\n%s\n(queries (%s)))\n" % (scanner.sx_program(prog), sx, " ".join(queries)),
                                          wd, timeout=120)
        if rc == "timeout":
            # (the simulation over bit sets of a few hundred NFA states times 256 bytes can outlast the time limit on a loaded machine)
            res['problems'].append(('inconclusive', "driver timeout on an NFA of %d states" % len(nodes)))
            return res
        if rc != 0:
            res['problems'].append(('driver-error', "rc=%s %s" % (rc, err[:300])))
            return res
        line = next((l for l in out.splitlines() if l.startswith("nfacheck")), "nfacheck ?")
        res['nfa_line'] = line
        res['nfa_states'] = len(nodes)
        if line.startswith("nfacheck OK"):
            res['nfa_checked'] = 1
            res['nfa_pairs'] = int(line.split("pairs=")[1].split()[0])
        elif "INCONCLUSIVE" in line:
            res['problems'].append(('inconclusive', line))
        else:
            m = re.search(r"input=\[([^\]]*)\]", line)
            word = [int(x) for x in m.group(1).split()] if m else None
            res['witness'] = word
            failing = confirm(case, wd, text, word) if word is not None else None
            res['failing_input'] = failing
            res['problems'].append(('nfa-mismatch', "the NFA flex built does not accept the documented language (premise of "
                                    "C01_nfa_accepts_the_documented_language fails): %s%s" % (
                                        line[:400], ("; the compiled scanner leaves the documented tokenisation on input " + bytes(failing).hex())
                                        if failing else "")))
        # equivalence classes and the uncompressed DFA
        eline = next((l for l in out.splitlines() if l.startswith("eccheck")), None)
        if eline is not None:
            res['ec_checked'] = 1
            if not eline.startswith("eccheck OK"):
                m = re.search(r"bytes=(\d+),(\d+)", eline)
                failing = confirm(case, wd, text, [int(m.group(1))], alt=[int(m.group(2))]) if m else None
                res['failing_input'] = res.get('failing_input') or failing
                res['problems'].append(('ec-mismatch', "two bytes of one equivalence class (yy_ec) are told apart by a transition of the NFA "
                                        "(premise of C02_equivalence_classes_respect_the_nfa fails): %s%s" % (
                                            eline[:300], ("; failing input " + bytes(failing).hex()) if failing else "")))
        dline = next((l for l in out.splitlines() if l.startswith("dfacheck")), None)
        if dline is not None:
            if dline.startswith("dfacheck OK"):
                res['dfa_checked'] = 1
            elif "INCONCLUSIVE" in dline:
                res['problems'].append(('inconclusive', dline))
            else:
                m = re.search(r"input=\[([^\]]*)\]", dline)
                word = [int(x) for x in m.group(1).split()] if m else None
                failing = confirm(case, wd, text, word) if word is not None else None
                res['failing_input'] = res.get('failing_input') or failing
                res['witness'] = res.get('witness') or word
                res['problems'].append(('dfa-mismatch', "the DFA flex printed (dfa.c, before table compression) does not select the documented "
                                        "rules (premise of C01_lockstep_sound on the printed DFA fails): %s%s" % (
                                            dline[:400], ("; failing input " + bytes(failing).hex()) if failing else "")))
    except Exception as ex:
        import traceback
        res['problems'].append(('harness-error', repr(ex) + traceback.format_exc()[-400:]))
    return res


def confirm(case, wd, text, word, alt=None):
    """Scan the distinguishing word (alone, and followed by bytes that end the token) with the compiled scanner and compare
    with the specification's tokenisation."""
    inputs = [word, word + [10], word + [0x7e], word + word]
    if alt:
        # two bytes that must be told apart: every sample match with one of them replaced by the other
        rng0 = Rng(case['seed']).fork("confirm-ec")
        for rl in case['prog']['rules']:
            for _ in range(4):
                try:
                    smp = scanner.sample(rl['head'], rng0, False, False, case['prog']['csize'])
                except Exception:
                    continue
                for a_, b_ in ((word[0], alt[0]), (alt[0], word[0])):
                    if a_ in smp:
                        inputs.append([b_ if x == a_ else x for x in smp])
                        inputs.append(smp)
    # the word may only distinguish the automata after more input (one of them can still reach a match): continue it with
    # the tails of sample matches of every rule
    rng = Rng(case['seed']).fork("confirm")
    for rl in case['prog']['rules']:
        for _ in range(3):
            try:
                smp = scanner.sample(rl['head'], rng, False, False, case['prog']['csize'])
            except Exception:
                continue
            for j in range(len(smp)):
                inputs.append(word + smp[j:])
    seen = set()
    inputs = [w for w in inputs if w and not (tuple(w) in seen or seen.add(tuple(w)))][:120]
    try:
        r = tokcase.eval_case(engine._FLEX, os.path.join(wd, "confirm"), case['prog'], text, case['flex_opts'], inputs,
                              check_lockstep=False, run_scs=[1], backend='nr')
    except Exception:
        return None
    for st in r.get('streams', []):
        if st.get('ok') is False or st.get('mismatch'):
            return st.get('input')
    for kind, msg in r.get('problems', []):
        if kind in ('token-mismatch', 'yytext-mismatch', 'scanner-abnormal'):
            m = re.search(r"input=([0-9a-f]*)", msg)
            return list(bytes.fromhex(m.group(1))) if m and m.group(1) else word
    return None


def judge_nfa(ck, cases, results, stats):
    mine = [(c, r) for c, r in zip(cases, results) if c.get('kind') == 'nfa']
    stats['nfa_checked'] = sum(r.get('nfa_checked', 0) for _, r in mine)
    stats['nfa_states_total'] = sum(r.get('nfa_states', 0) for _, r in mine if r.get('nfa_checked'))
    stats['nfa_pairs_checked'] = sum(r.get('nfa_pairs', 0) for _, r in mine)
    stats['nfa_inconclusive'] = sum(1 for _, r in mine if any(p[0] == 'inconclusive' for p in r['problems']))
    stats['dfa_dumps_checked'] = sum(r.get('dfa_checked', 0) for _, r in mine)
    stats['ec_tables_checked'] = sum(r.get('ec_checked', 0) for _, r in mine)
    for c, r in mine:
        c['text'] = r.get('text', '')
        for kind, msg in r['problems']:
            stats.setdefault('problem_kinds', {})
            stats['problem_kinds'][kind] = stats['problem_kinds'].get(kind, 0) + 1
        probs = [p for p in r['problems'] if p[0] != 'inconclusive']
        if not probs:
            continue
        kind, msg = probs[0]
        fi = r.get('failing_input')
        ck.violation("%s:%s" % (kind, engine.prog_key(c)), msg[:700],
                     {'spec': c['text'], 'flex_opts': c['flex_opts'] + ["-T"],
                      'theorem': 'C01_nfa_accepts_the_documented_language (premise check_view (nview nfa) = true)' if kind == 'nfa-mismatch' else None,
                      'distinguishing_word_hex': bytes(r['witness']).hex() if r.get('witness') is not None else None,
                      'input_hex': bytes(fi).hex() if fi else None,
                      'detail': [list(p) for p in r['problems'][:3]],
                      'how': "flex <opts> -T -o s.c s.l prints the NFA on stderr; extract/flexv_driver (query nfacheck) relates its subset "
                             "simulation to the specification automaton; the distinguishing word is then scanned by the compiled scanner"},
                     no_input=(kind not in ('nfa-mismatch', 'dfa-mismatch', 'ec-mismatch') or not fi))
