"""C03: input delivery.  Scanners fed through a harness-supplied input routine
that follows a read schedule (and logs every request), through stdio with small
buffers, and through yy_scan_string / yy_scan_bytes / yy_scan_buffer."""
import os
import re

import backends
import scanner
import tables
import tokcase
from common import run

TOP = r"""
#include <stdio.h>
#include <stdlib.h>
#include <string.h>
static void emit_tok(int r, const char *t, int n);
static unsigned char *g_data; static long g_len, g_pos; static int g_sched[4096]; static int g_nsched, g_si;
static int sched_read(char *buf, long max_size)
{
    long want = g_si < g_nsched ? g_sched[g_si++] : 4096;
    long n = g_len - g_pos;
    if (n > want) n = want;
    if (n > max_size) n = max_size;
    if (n > 0) memcpy(buf, g_data + g_pos, (size_t) n);
    g_pos += n;
    printf("Q %ld %ld\n", n, max_size);
    return (int) n;
}
static void load_all(int argc, char **argv)
{
    FILE *f = fopen(argv[2], "rb"); int i;
    if (!f) exit(2);
    fseek(f, 0, SEEK_END); g_len = ftell(f); fseek(f, 0, SEEK_SET);
    g_data = (unsigned char *) malloc((size_t) g_len + 2);
    if (g_len && fread(g_data, 1, (size_t) g_len, f) != (size_t) g_len) exit(2);
    g_data[g_len] = 0; g_data[g_len + 1] = 0;
    fclose(f);
    for (i = 3; i < argc && g_nsched < 4096; i++) g_sched[g_nsched++] = atoi(argv[i]);
}
"""

EMIT = r"""
static void emit_tok(int r, const char *t, int n)
{
    unsigned h = 2166136261u; int i;
    for (i = 0; i < n; i++) { h ^= (unsigned char) t[i]; h *= 16777619u; }
    printf("T %d %d %u\n", r, n, h);
}
"""

# argv: mode file [schedule...]   mode: s = schedule through the input routine, f = FILE, F = FILE with one-byte writes (pipe)
#       S = yy_scan_string (input without NUL), B = yy_scan_bytes, U = yy_scan_buffer (user-owned)
MAIN_NR = r"""
int main(int argc, char **argv)
{
    char mode = argv[1][0];
    load_all(argc, argv);
    if (mode == 's') { g_use_sched = 1; yyin = stdin; yylex(); }
    else if (mode == 'f') { yyin = fopen(argv[2], "rb"); yylex(); }
    else if (mode == 'p') { yyin = stdin; if (argc > 3 && argv[3][0] == 'i') { yy_set_interactive(1); } yylex(); }
    else if (mode == 'S') { yy_scan_string((char *) g_data); yylex(); }
    else if (mode == 'B') { yy_scan_bytes((char *) g_data, (int) g_len); yylex(); }
    else if (mode == 'U') { if (!yy_scan_buffer((char *) g_data, (size_t) g_len + 2)) { printf("NULLBUF\n"); return 0; } yylex(); }
    fflush(stdout);
    return 0;
}
"""
MAIN_R = r"""
int main(int argc, char **argv)
{
    char mode = argv[1][0]; yyscan_t s;
    load_all(argc, argv);
    if (yylex_init(&s)) return 3;
    if (mode == 's') { g_use_sched = 1; yyset_in(stdin, s); yylex(s); }
    else if (mode == 'f') { yyset_in(fopen(argv[2], "rb"), s); yylex(s); }
    else if (mode == 'p') { yyset_in(stdin, s); yylex(s); }
    else if (mode == 'S') { yy_scan_string((char *) g_data, s); yylex(s); }
    else if (mode == 'B') { yy_scan_bytes((char *) g_data, (int) g_len, s); yylex(s); }
    else if (mode == 'U') { if (!yy_scan_buffer((char *) g_data, (size_t) g_len + 2, s)) { printf("NULLBUF\n"); return 0; } yylex(s); }
    yylex_destroy(s);
    fflush(stdout);
    return 0;
}
"""
MAIN_CXX = r"""
#include <fstream>
#include <iostream>
struct SL : public yyFlexLexer {
    SL(std::istream *i) : yyFlexLexer(i, 0) {}
    virtual int LexerInput(char *buf, int max_size) { return g_use_sched ? sched_read(buf, max_size) : yyFlexLexer::LexerInput(buf, max_size); }
};
int main(int argc, char **argv)
{
    char mode = argv[1][0];
    load_all(argc, argv);
    std::ifstream in(argv[2], std::ios::binary);
    SL lexer(mode == 'p' ? (std::istream *) &std::cin : (std::istream *) &in);
    if (mode == 's') g_use_sched = 1;
    lexer.yylex();
    fflush(stdout);
    return 0;
}
"""


def make_spec(prog, rng, backend, bufsize=None, extra_options=None, plain=False):
    """plain: the scanner keeps flex's own input routine (YY_INPUT / yyread as generated: the getc loop of interactive buffers,
    fread, or read() under %option read); such scanners are run in modes p (a pipe on stdin, written in pieces) and f only."""
    defs = {}
    nrules = len(prog['rules'])
    opts = ["noyywrap", "nounput", "noinput"] + backends.BACKENDS[backend]['options'] + list(extra_options or [])
    if prog.get('caseins'):
        opts.append("case-insensitive")
    if backend == 'c99':
        if not plain:
            opts.append("noyyread")
        if bufsize:
            opts.append("bufsize=%d" % bufsize)
    top = ("#define _GNU_SOURCE 1\n" if backend == 'c99' else "") + TOP + "static int g_use_sched;\n"
    if backend in ('nr', 'r'):
        if not plain:
            top += ("#define YY_INPUT(buf,result,max_size) do { if (g_use_sched) result = sched_read(buf, (long) (max_size)); else { "
                    "size_t n_ = fread(buf, 1, (size_t) (max_size), yyin); result = (int) n_; } } while (0)\n")
        top += "#define tok(r) emit_tok(r, yytext, (int) yyleng)\n#define yyecho() tok(%d)\n" % (nrules + 1)
    elif backend == 'cxx':
        top += "#define tok(r) emit_tok(r, yytext, (int) yyleng)\n#define yyecho() tok(%d)\n" % (nrules + 1)
    else:
        top += "#define tok(r) emit_tok(r, yyget_text(yyscanner), (int) yyget_leng(yyscanner))\n"
        if not plain:
            top += "static int yyread(char *buf, size_t max_size, yyscan_t yyscanner) { return sched_read(buf, (long) max_size); }\n"
    out = ["%option " + " ".join(opts), "%{\n" + top + "%}"]
    pats = [scanner.print_rule_pattern(r, rng, defs) for r in prog['rules']]
    for name in defs:
        out.append("%s %s" % (name, defs[name]))
    for i, (name, excl) in enumerate(prog.get('scs', [])):
        out.append("%s SC%d" % ("%x" if excl else "%s", i + 2))
    out.append("%%")
    for i, p in enumerate(pats):
        out.append("%s\t{ tok(%d); }" % (p, i + 1))
    if backend == 'c99':
        out.append("<*>.|\\n\t{ tok(%d); }" % (nrules + 1))      # c99: yyecho is a function, an explicit catch-all stands in
    out.append("%%")
    main = {'nr': MAIN_NR, 'r': MAIN_R, 'cxx': MAIN_CXX}.get(backend)
    if backend == 'c99' and not plain:
        main = MAIN_R.replace("else if (mode == 'f') { yyset_in(fopen(argv[2], \"rb\"), s); yylex(s); }", "")
    elif backend == 'c99':
        main = MAIN_R
    out.append(EMIT + main)
    return "\n".join(out) + "\n"


MAXSIZES = []          # the max_size arguments of the read requests of the run parsed last


def parse_events(out):
    evs = []
    del MAXSIZES[:]
    for line in out.decode(errors="replace").splitlines():
        p = line.split()
        if not p:
            continue
        if p[0] == 'T' and len(p) == 4:
            evs.append(('T', int(p[1]), int(p[2]), int(p[3])))
        elif p[0] == 'Q' and len(p) in (2, 3):
            evs.append(('Q', int(p[1])))
            if len(p) == 3:
                MAXSIZES.append(int(p[2]))
        else:
            evs.append(('?', line[:60]))
    return evs


def run_piped(cmd, data, schedule, timeout=8):
    """Run cmd with data written to its standard input in the pieces of the schedule (a short pause after each piece, so that
    the reader usually sees them one by one); which pieces a read() or getc() really gets is up to the kernel - the
    tokens must not depend on it."""
    import subprocess
    import threading
    import time
    p = subprocess.Popen(cmd, stdin=subprocess.PIPE, stdout=subprocess.PIPE, stderr=subprocess.PIPE)

    def feed():
        pos = 0
        k = 0
        try:
            while pos < len(data):
                n = schedule[k] if k < len(schedule) else 4096
                k += 1
                p.stdin.write(data[pos:pos + max(1, n)])
                p.stdin.flush()
                pos += max(1, n)
                if k < 40:
                    time.sleep(0.0015)
        except (BrokenPipeError, OSError):
            pass
        finally:
            try:
                p.stdin.close()
            except (BrokenPipeError, OSError):
                pass
    th = threading.Thread(target=feed, daemon=True)
    th.start()
    try:
        out, err = p.communicate_nostdin(timeout) if hasattr(p, "communicate_nostdin") else _collect(p, timeout)
    except subprocess.TimeoutExpired:
        p.kill()
        p.wait()
        return "timeout", b"", b""
    th.join(1)
    return p.returncode, out, err


def _collect(p, timeout):
    import subprocess
    import threading
    bufs = {}

    def rd(name, f):
        bufs[name] = f.read()
    t1 = threading.Thread(target=rd, args=("o", p.stdout), daemon=True)
    t2 = threading.Thread(target=rd, args=("e", p.stderr), daemon=True)
    t1.start()
    t2.start()
    p.wait(timeout)
    t1.join(2)
    t2.join(2)
    return bufs.get("o", b""), bufs.get("e", b"")


OVERFLOW_MSG = "can't enlarge buffer because scanner uses"


def eval_sched_case(flex, workdir, case):
    """case: prog, backend, flex_opts, bufsize, inputs: [(mode, bytes, schedule)], seed"""
    from common import Rng
    res = {'problems': [], 'lockstep': [], 'streams': [], 'flex_opts': list(case['flex_opts'])}
    os.makedirs(workdir, exist_ok=True)
    prog = case['prog']
    backend = case['backend']
    if backend == 'c99':
        prog = dict(prog)
        prog['rules'] = list(prog['rules']) + [{'head': ('alt', ('any',), ('c', 10)), 'bol': False, 'scs': '*', 'trail': None}]
    text = make_spec(case['prog'], Rng(case['seed']).fork("print"), backend, bufsize=case.get('bufsize'), extra_options=case.get('extra_options'),
                     plain=bool(case.get('plain')))
    res['text'] = text
    with open(os.path.join(workdir, "s.l"), "w") as f:
        f.write(text)
    cfile = "s." + backends.BACKENDS[backend]['ext']
    rc, out, err = scanner.run_flex(flex, "s.l", cfile, case['flex_opts'], workdir)
    res['flex_rc'] = rc
    res['flex_err'] = err.decode(errors="replace")[:2000]
    if rc != 0:
        exp = tokcase.expected_refusal(prog, case['flex_opts'], backend, workdir)
        if exp and any(m in res['flex_err'] for m in exp):
            res['refusal_documented'] = True
        else:
            res['problems'].append(('flex-error', res['flex_err'][:300]))
        return res
    res['dangerous'] = "dangerous trailing context" in res['flex_err']
    cc_extra = list(case.get('cc_extra') or [])
    if case.get('bufsize') and backend != 'c99':
        cc_extra.append("-DYY_BUF_SIZE=%d" % case['bufsize'])
    rc, out, err = scanner.compile_c(cfile, "s.exe", workdir, extra=cc_extra + ["-I" + os.path.dirname(flex)], backend=backend)
    if rc != 0:
        res['problems'].append(('compile-error', err.decode(errors="replace")[:600]))
        return res
    with open(os.path.join(workdir, cfile), errors="replace") as f:
        t = tables.parse_scanner(f.read())
    try:
        tsx = tables.tables_sexp(t, "t")
    except (tables.TableError, KeyError, IndexError) as ex:
        res['problems'].append(('tables-unreadable', repr(ex)))
        return res
    res['lastdfa'] = t.get('lastdfa')
    rej = tables.is_reject(t)
    adjx = tables.adj_sexp(t)
    queries = []
    runs = []
    reqchecks = []
    for ii, (mode, w, schedule) in enumerate(case['inputs']):
        ipath = os.path.join(workdir, "in%d.bin" % ii)
        with open(ipath, "wb") as f:
            f.write(bytes(w))
        if mode == 'p':
            rc, out, err = run_piped([os.path.join(workdir, "s.exe"), mode, ipath] + (["i"] if case.get('setint') else []), bytes(w), schedule, timeout=8)
        else:
            rc, out, err = run([os.path.join(workdir, "s.exe"), mode, ipath] + [str(x) for x in schedule], timeout=6)
        evs = parse_events(out)
        maxsizes = list(MAXSIZES)
        errs = err.decode(errors="replace")
        runs.append((mode, w, schedule, rc, evs, errs))
        toks = [(e[1], e[2]) for e in evs if e[0] == 'T']
        wsx = "(" + " ".join(str(b) for b in w) + ")"
        queries.append("(validate_o %s 1 1 %s (%s))" % (scanner.owners_sx(prog), wsx, " ".join("(%d %d)" % tk for tk in toks)))
        if mode == 's' and not rej:
            # the window machine on the chunks that were really delivered
            chunks = []
            pos = 0
            for e in evs:
                if e[0] == 'Q' and e[1] > 0:
                    chunks.append(w[pos:pos + e[1]])
                    pos += e[1]
            queries.append("(wtokens t 1 1 %s (%s))" % (adjx, " ".join("(" + " ".join(str(b) for b in c) + ")" for c in chunks)))
            # the buffer arithmetic (coq/BufLayout.v): the max_size of every request from the length of the unfinished token
            ntms = []
            got = done = 0
            for e in evs:
                if e[0] == 'Q':
                    ntms.append(got - done)
                    got += e[1]
                elif e[0] == 'T':
                    done += e[2]
            if rc == 0 and len(ntms) == len(maxsizes) and all(x >= 0 for x in ntms):
                queries.append("(requests %d (%s))" % (case.get('bufsize') or 16384, " ".join(str(x) for x in ntms)))
                reqchecks.append((len(queries) - 1, ii, maxsizes))
    sx = "(case %s\n%s\n(queries (%s)))\n" % (scanner.sx_program(prog), tsx, "\n".join(queries))
    rc, out, err = scanner.run_driver(sx, workdir, timeout=120)
    if rc == "timeout":
        res['problems'].append(('inconclusive', 'driver timeout'))
        return res
    if rc != 0:
        res['problems'].append(('driver-error', "rc=%s %s" % (rc, err[:300])))
        return res
    lines = out.splitlines()
    li = 0
    for run_index, (mode, w, schedule, rrc, evs, errs) in enumerate(runs):
        vline = lines[li] if li < len(lines) else ""
        li += 1
        toks = [(e[1], e[2]) for e in evs if e[0] == 'T']
        pos = 0
        text_ok = True
        for e in evs:
            if e[0] == 'T':
                if scanner.fnv(w[pos:pos + e[2]]) != e[3]:
                    text_ok = False
                pos += e[2]
        valid = vline.strip() == "validate OK"
        desc = "mode=%s bufsize=%s schedule=%s input=%s" % (mode, case.get('bufsize'), schedule[:12], bytes(w).hex())
        overflow = OVERFLOW_MSG in errs
        res['streams'].append({'input': bytes(w).hex(), 'sc': 1, 'real': toks, 'valid': valid, 'text_ok': text_ok, 'mode': mode})
        if mode == 'U' and any(e[0] == '?' and 'NULLBUF' in e[1] for e in evs):
            res['problems'].append(('scan-buffer-null', "yy_scan_buffer returned NULL for a buffer ending in two NULs: " + desc))
        elif rrc != 0 and overflow and rej:
            # documented: a REJECT scanner stops when a token (plus look-ahead) outgrows its non-growing buffer
            longest = max([b for _, b in toks] + [0])
            res.setdefault('reject_overflows', 0)
            res['reject_overflows'] += 1
        elif rrc == "timeout" and rej and backend == 'c99' and (case.get('bufsize') or 99) <= 8:
            res['problems'].append(('c99-reject-tiny-buffer-hang', "rc=timeout %s" % desc))
        elif rrc != 0:
            res['problems'].append(('scanner-abnormal', "rc=%s %s stderr=%s" % (rrc, desc, errs[:160])))
        elif res['dangerous']:
            pass
        elif not valid:
            res['problems'].append(('token-mismatch', "%s tokens=%s" % (desc, toks[:30])))
        elif not text_ok:
            res['problems'].append(('yytext-mismatch', desc))
        if mode == 's' and not rej:
            wl = lines[li] if li < len(lines) else ""
            li += 1
            mev = []
            for tk in wl.split()[1:]:
                p = tk.split(":")
                mev.append(('T', int(p[1]), int(p[2])) if p[0] == 'T' else ('Q', int(p[1])))
            rev = [(e[0], e[1], e[2]) if e[0] == 'T' else e for e in evs]
            if rrc == 0 and valid and rev != mev:
                k = 0
                while k < len(rev) and k < len(mev) and rev[k] == mev[k]:
                    k += 1
                # which byte ended the token the window machine delivered before the scanner asked again?
                kind = 'request-mismatch'
                if k < len(rev) and k < len(mev) and rev[k][0] == 'Q' and mev[k][0] == 'T':
                    consumed = sum(e[2] for e in mev[:k + 1] if e[0] == 'T')
                    obtained = sum(e[1] for e in rev[:k] if e[0] == 'Q')
                    # the known finding: the last byte obtained so far is a NUL that completes the match (the token itself or,
                    # for a rule with trailing context, the token plus its context)
                    if (0 < consumed <= len(w) and w[consumed - 1] == 0) or (0 < obtained <= len(w) and w[obtained - 1] == 0):
                        kind = 'request-early-after-nul'
                res['problems'].append((kind, "%s at event %d: real=%s window-machine=%s" % (desc, k, rev[k:k + 4], mev[k:k + 4])))
            rq = [x for x in reqchecks if x[1] == run_index]
            if rq:
                rl = lines[li] if li < len(lines) else ""
                li += 1
                want = [int(x) for x in rl.split()[1:]] if rl.startswith("requests") else None
                res['requests_checked'] = res.get('requests_checked', 0) + len(rq[0][2])
                if want != rq[0][2]:
                    k = next((i for i in range(min(len(want or []), len(rq[0][2]))) if want[i] != rq[0][2][i]), 0)
                    res['problems'].append(('request-size-mismatch', "%s: request %d asks for %s bytes, the buffer model (coq/BufLayout.v) for %s" % (
                        desc, k, rq[0][2][k:k + 3], (want or [])[k:k + 3])))
    return res
