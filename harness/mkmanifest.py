"""Regenerates /verif/MANIFEST.json from the table below (keeps it valid at all times)."""
import json
import os

VERIF = os.path.dirname(os.path.dirname(os.path.abspath(__file__)))

TB = ("Trusted: Coq 8.16.1 kernel (coqc, vm_compute; no native_compute), extraction with ExtrOcamlBasic only + OCaml glue "
      "(extract/driver.ml), the Python harness (pattern printer, table reader, back-end templates, shrinkers), gcc/g++/m4. "
      "The C and m4 text of flex is modelled, not verified: it is tied to the model by differential execution on every run.")

CHECKS = {
    "C01": dict(
        text="Rocq theorems (C01_longest_match_first_rule, C01_lockstep_sound, C01_spec_automaton, C01_matcher_decides, "
             "C01_validator_sound): any table automaton passing the extracted proved lock-step check against the specification "
             "automaton of the rule set selects, for EVERY input, the longest match / first rule token of the manual. The check is "
             "run on the tables the rebuilt flex emits for each generated rule set (incl. sets that force every generator array "
             "to grow); compiled scanners' token streams are judged by a proved validator. The intermediate products of the generator "
             "are inside the model too: the NFA printed by flex -T with its path semantics, its subset simulation proved exact "
             "(C01_subset_construction_is_exact, C01_dfa_state_accepts_first_nfa_rule), and the same checker applied to that NFA "
             "(C01_nfa_accepts_the_documented_language) and to the printed DFA (C01_printed_dfa_selects_the_documented_token); both passing means the same token over either on every input (C01_dfa_construction_preserves_the_nfa_token).",
        design="DESIGN.md section 6 C01 and 12.2", technique="machine-checked proof (Rocq) + proved checker run on emitted tables + differential correspondence"),
    "C02": dict(
        text="Rocq theorems C02_representation_independent (two table sets passing the lock-step check agree on every input) and "
             "C02_refusals (generator option-compatibility model = documented table on all 6144 option sets, enumeration proved complete). "
             "Every (table option, 7/8 bit, batch/interactive, %array, back end) combination examined is lock-stepped against the same "
             "specification; flex's accept/refuse decision is compared with the extracted model on all 6144 option sets. "
             "C02_equivalence_classes_respect_the_nfa / C02_equivalence_classes_preserve_the_token / C02_scanning_class_representatives_is_scanning_bytes: the emitted yy_ec is judged against the printed NFA (bytes of one class "
             "drive the subset construction alike), for every input (run inside C01's NFA family).",
        design="DESIGN.md section 6 C02", technique="machine-checked proof (Rocq) + exhaustive finite table + proved checker on emitted tables"),
    "C06": dict(
        text="Rocq theorems: C06_validator_sound (accepted token streams are documented tokenisations in which r/s competes with "
             "|r|+|s| and the action sees a head split with r and s matching), C06_fixed_len_sound + C06_fixed_tail_split / "
             "C06_fixed_head_split (the rewind flex emits for fixed-length context is the documented, unique split), "
             "C06_bol_rules_only_at_bol, C06_head_marker_meaning (variable context: head markers of verified tables mean 'head matches'). "
             "Real tables (incl. yy_acclist with head/trail marks) are lock-stepped against the specification; every token of compiled "
             "scanners over 4 back ends is judged by the proved validator; flex's 'dangerous trailing context' sets are excluded.",
        design="DESIGN.md section 6 C06", technique="machine-checked proof (Rocq) + proved validator on real token streams + lock-step on emitted tables"),
    "C07": dict(
        text="Rocq theorems: C07_alternatives_from_tables (for tables passing the lock-step check on full accepting lists, the "
             "state-stack loop offers, for EVERY input, exactly the specification's list), C07_alternatives_complete (all and only the "
             "matching (rule,length) pairs), C07_alternatives_ordered (decreasing length, then rule order), refusal with -Cf/-CF. "
             "Compiled scanners with rejecting actions (REJECT and yyreject() spellings, 4 back ends) are compared event by event with "
             "the specification's walk and with the walk over the emitted yy_acclist. REJECT inside rules with variable trailing context: "
             "C07_validated_events_are_documented (the proved validator accepts only walks through the alternatives in order, every action "
             "handed a documented head of its match), C07_walk_skips_no_alternative, C07_variable_head_from_tables (for checked tables the "
             "head the find_rule loop settles on is, for EVERY input, a prefix matched by the head pattern).",
        design="DESIGN.md section 6 C07", technique="machine-checked proof (Rocq) + lock-step on emitted yy_acclist + differential event streams"),
    "C03": dict(
        text="Rocq theorems about the window machine (the control flow of refills, coq/Window.v): C03_scan_independent_of_chunking and "
             "C03_tokens_independent_of_chunking (for EVERY way of cutting the input into chunks the match loop with refills and the "
             "whole token stream equal those over the concatenation) and C03_no_request_once_stopped (a chunk is requested only while "
             "the loop has not stopped on everything obtained so far). Compiled scanners (4 back ends, buffer sizes 1..64, read "
             "schedules, FILE / yy_scan_string / yy_scan_bytes / yy_scan_buffer) are judged by the proved validator, and the "
             "interleaving of their read requests with tokens is compared with the extracted window machine on the chunks really "
             "delivered. The buffer as addresses (coq/BufLayout.v): C03_overlapping_move_is_right, C03_refill_fits_the_buffer, C03_refill_is_window_append, C03_every_request_asks_for_something; its request sizes are compared with the max_size of every real request.",
        design="DESIGN.md section 6 C03", technique="machine-checked proof (Rocq) of the refill control flow + proved validator + differential request/token streams"),
    "C04": dict(
        text="Rocq theorems: C04_all_bytes_incl_nul (the match-loop theorem with the lock-step premise checked over all 256 byte values, "
             "NUL taken through YY_NUL_EC / yy_NUL_trans as the skeleton does) and C04_seven_bit_eight_bit_agree (for every pattern, "
             "the 7-bit and 8-bit denotations match the same 7-bit words). Real tables of every representation are lock-stepped over the "
             "full alphabet; compiled scanners (4 back ends, batch/interactive, %array, buffer sizes 1..16) are run on inputs sprinkled "
             "with NULs and judged by the proved validator; -7 refusal of 8-bit patterns is probed.",
        design="DESIGN.md section 6 C04", technique="machine-checked proof (Rocq) + lock-step over the full alphabet + proved validator on real token streams"),
    "C05": dict(
        text="Rocq theorems: C05_start_state_rules / C05_active_documented (candidates = documented active rules + default rule), "
             "C05_changes_only_by_begin_push_pop, C05_wrap_keeps_condition, C05_stack_lifo (any number of pushes then pops is the identity), "
             "C05_underflow_is_fatal, C05_array_stack_refines_list + C05_push_in_bounds (the skeleton's growing array, with "
             "YY_START_STACK_INCR read from the source, refines the list for every history). Every (condition, BOL) start state of real "
             "tables for programs with up to 45 conditions is lock-stepped; action programs with begin/push/pop/top are compared event "
             "by event with the stream machine.",
        design="DESIGN.md section 6 C05", technique="machine-checked proof (Rocq): invariants + refinement; lock-step on emitted tables; differential event streams"),
    "C08": dict(
        text="Rocq: laws of the stream machine for yyless / yyunput / yyinput (C08_less_law, C08_less_keeps_all_bytes, "
             "C08_unput_next_read, C08_input_returns_next, C08_input_end_value_only_at_end) and C08_bytes_conserved (coq/Conservation.v): "
             "in EVERY reachable state of a run that keeps yytext defined where it is used (no yyunput; each yyless gives back only bytes "
             "of the token just matched and precedes any yyinput of its action) consumed ++ unread = the concatenation of all sources - "
             "each input byte is consumed exactly once and in order, across refills, yywrap, yymore, yyless, yyinput. The machine (extracted) is the oracle: "
             "compiled scanners (4 back ends, %pointer/%array, small buffers, several sources) running generated action programs are "
             "compared event by event (rule, yyleng, hash of yytext, yyinput values). yyunput on the buffer as addresses (coq/Unput.v): "
             "C08_unput_overlapping_move_is_right, C08_unput_pushes_in_front, C08_unput_overflow_exact, C08_unput_stays_inside, "
             "C08_unputs_then_rescanned, C08_unput_after_scan_bytes_overflows; compiled scanners on a grid of (back end, buffer size, bytes buffered, token offset, number of "
             "unputs) stop with 'push-back overflow' exactly when the model does and rescan the model's unread bytes. "
             "The tie of the C code to the models is differential.",
        design="DESIGN.md section 6 C08", technique="machine-checked laws of an executable specification (Rocq) + differential event streams"),
    "C09": dict(
        text="Rocq theorems C09_lineno_conservation (in every reachable state of the stream machine, for all rules, inputs, sources and "
             "yyless/yyunput/yyinput/yymore calls: yylineno = 1 + newlines of everything - newlines still unread) and "
             "C09_untouched_without_option; for scanners whose actions REJECT: C09_reject_does_not_count_lines (the number an action sees "
             "is one plus the newlines consumed before its token plus those of the text handed to it, whatever was rejected before). "
             "The emitted table yy_rule_can_match_eol (coq/EolTable.v): C09_can_match_eol_decided (can_nl decides whether a pattern has a "
             "match containing a newline), C09_eol_table_covers_every_newline (a table passing the extracted eol_ok is set for every rule "
             "and EVERY text its head can match that contains a newline), C09_newline_witness_is_a_match (the witness tried as failing "
             "input when a flag is missing). Compiled scanners print yylineno in every action and are compared with the machine / with "
             "rej_tokens_ln; the eol tables of generated rule sets are judged without running a scanner.",
        design="DESIGN.md section 6 C09", technique="machine-checked invariant (Rocq) over all histories + differential event streams"),
    "C10": dict(
        text="Rocq theorems C10_eof_only_when_exhausted (the <<EOF>> action of the current condition runs only when no byte is left in "
             "any source) and C10_wrap_continues (a source supplied by yywrap continues in the unchanged condition, at BOL, nothing lost). "
             "Compiled scanners with <<EOF>> rules over subsets of conditions and 1-4 sources chained by yywrap are compared event by "
             "event with the machine; sources that report end of input and deliver more afterwards (user YY_INPUT): yywrap consulted once "
             "per report, the tokens between two consultations judged by the proved validator against one piece. The assignment of <<EOF>> rules "
             "to start conditions is the extracted Gallina function eof_assign (parse.y over sceof[]), with C10_eof_rule_is_the_first_covering, "
             "C10_unqualified_eof_applies_to_exactly_the_conditions_lacking_their_own and C10_unlisted_condition_keeps_the_default.",
        design="DESIGN.md section 6 C10", technique="machine-checked proof (Rocq) about the executable specification + differential event streams"),
    "C11": dict(
        text="Rocq theorems about the buffer model (coq/Buffers.v): C11_other_buffers_untouched (for EVERY operation - create, scan_*, "
             "switch, push, pop, flush, delete, any number of yylex calls - a buffer that is neither named nor being scanned keeps its "
             "unread input, BOL status and line number), C11_switch_and_back_resumes, C11_scan_gives_exactly_the_bytes, "
             "C11_push_pop_returns, C11_flush_keeps_unread_file_text, C11_pop_in_yywrap_leaves_others / C11_pop_in_yywrap_resumes (yypop_buffer_state() from yywrap()). Histories of 10-60 operations (to stack depth > 9) are replayed "
             "against non-reentrant, reentrant (per-buffer yylineno) and c99 scanners and compared token by token (labelled with the "
             "buffer) with the extracted model; yy_scan_buffer is probed with unterminated buffers. The buffer stack as an array with a capacity (coq/StackGrow.v): C11_stack_index_inside_the_array (EVERY history of pushes and pops keeps the index of the current buffer inside the allocated array), C11_push_makes_current, C11_pop_returns_to_the_buffer_below, C11_push_is_cons and C11_pop_is_tail (refinement to a list); in-memory buffers (coq/Unput.v): C11_scan_bytes_holds_its_bytes, C11_scan_buffer_needs_two_sentinels; (top, capacity) after every operation of generated histories is compared with yy_buffer_stack_top / yy_buffer_stack_max of compiled scanners.",
        design="DESIGN.md section 6 C11", technique="machine-checked proof (Rocq) of buffer independence + differential histories"),
    "C12": dict(
        text="PARTIAL. Rocq theorems (coq/Isolation.v): C12_interleaving_independent and C12_schedules_equivalent - in a system whose "
             "steps touch one instance only, under EVERY schedule of calls each instance delivers exactly what it delivers when run alone "
             "(C12_shared_state_breaks_it: one shared cell is enough to lose this). That generated scanners are such systems is checked, "
             "not proved: nm shows no writable data in the object of a reentrant scanner, 2-5 instances of generated reentrant C / c99 / "
             "C++ scanners are interleaved call by call under generated schedules and compared per instance with the run alone, the same "
             "instances run in one thread each under ThreadSanitizer, and two scanners with different prefixes are linked into one "
             "program (disjoint external symbols, own tables).",
        design="DESIGN.md section 6 C12", technique="machine-checked proof (Rocq) of interleaving independence + object facts (nm) + generated interleavings + ThreadSanitizer"),
    "C13": dict(
        category="proof",
        text="PARTIAL. Rocq theorems: C13_*_lookups_in_range (for tables passing the extracted range check, the compressed / full / "
             "-CF / REJECT interpreters never index outside yy_ec, yy_meta, yy_base, yy_def, yy_nxt, yy_chk, yy_accept, yy_acclist for ANY "
             "input byte sequence) and C13_ledger_sound (a trace of yyalloc/yyrealloc/yyfree calls accepted by the extracted checker "
             "frees every block exactly once, passes only live blocks to yyfree/yyrealloc and ends with nothing allocated). The range "
             "check runs on the tables of every generated scanner; buffer histories (incl. yylex_destroy followed by reuse) and "
             "stream-editing programs run under ASan+LSan+UBSan with logging allocators whose traces go through the proved ledger "
             "checker. Not proved: absence of undefined behaviour in the C text of the skeleton beyond table lookups and the ledger.",
        design="DESIGN.md section 6 C13", technique="machine-checked proof (Rocq) of index ranges and of the allocation-ledger checker + sanitizer-instrumented differential runs"),
    "C14": dict(
        text="PARTIAL. Rocq theorems about the fault machine (coq/Faults.v): C14_yyread_loop_meets_spec (the retry loop of yyread() obtains "
             "exactly the specified chunks), C14_eintr_transparent (interrupted reads, wherever and however often they occur, change "
             "nothing), C14_no_loss_no_duplication, C14_tokens_before_failure_are_true_tokens (whatever a scanner delivers before the "
             "request that fails is a prefix of the token stream of the complete input: nothing is scanned on truncated input). Scanners "
             "reading through a stream whose low-level reads follow generated schedules of short reads / EINTR / EIO (3 back ends, batch "
             "and interactive, buffered and unbuffered) are compared with the extracted machine; allocation failures are injected at EVERY "
             "request index of buffer histories and stream programs (ASan/UBSan on): documented message or error return, event prefix of "
             "the fault-free run, no memory error. Not proved: the NULL checks in the C text (decided by exhaustive injection only).",
        design="DESIGN.md section 6 C14", technique="machine-checked proof (Rocq) of the read-fault machine + exhaustive fault injection compared with the extracted machine"),
    "C15": dict(
        text="Rocq theorems about the documented file format (coq/Codec.v): C15_table_round_trip (id, flags, hilen, lolen, big-endian "
             "data of the flagged width, zero padding: decode(encode t ++ rest) = (t, rest)), C15_tables_are_64bit_aligned, "
             "C15_sets_found_by_name (sets concatenated in ANY order are each found by name), C15_truncated_never_found (every proper "
             "prefix of a set file is refused), C15_wrong_magic_rejected; magic / ids / flags come from the source on every run. Real "
             "--tables-file output of every table representation (incl. yy_acclist of REJECT scanners and of rules with variable trailing context) is read by the extracted decoder, compared with the in-code tables, "
             "re-encoded byte-identically, loaded by the real yytables_fload (streams = in-code scanner; ASan/UBSan + leak check), "
             "truncated at ~60 offsets per file, concatenated in all orders, and checked with tables-verify scanners.",
        design="DESIGN.md section 6 C15", technique="machine-checked proof (Rocq) of the codec + proved decoder run on real files + differential loading"),
    "C16": dict(
        text="PARTIAL. Rocq theorems about the exit-status fold of flex_main()'s handler and the filter processes (coq/ExitStatus.v): "
             "C16_exit_zero_iff_requested_and_children_ok, C16_own_failure_never_masked, C16_process_tree_zero_iff_every_stage_ok (if every "
             "process waits for what it forked and folds like flex_main, status 0 <=> every stage finished its work). That each stage "
             "does exit non-zero on an incomplete output is checked by write-failure injection on every output (scanner, stdout, header, "
             "tables file, backup file x writable / full device / missing directory), with completeness (compilability, self-contained "
             "header) of everything written when the status is 0. Robustness: 23 kinds of malformed and extreme specifications (limits at "
             "2047..5000-byte names, 20000-byte lines, 5000-deep nesting, 8300 rules, large NFAs, binary garbage) against an ASan/UBSan build "
             "of flex rebuilt from /repo: no signal, no sanitizer report, non-zero status always with a flex diagnostic. Robustness for "
             "ALL inputs is not proved (no model of the whole generator).",
        design="DESIGN.md section 6 C16", technique="machine-checked proof (Rocq) of the status fold + write-failure injection + generated malformed inputs against a sanitizer build"),
    "C17": dict(
        text="Rocq theorems C17_closed_check_sound / C17_never_selected: a verified closed set of specification states proves that a rule "
             "is never the selected one, for any start condition, line-start state and input; C17_witness_means_selected: a witness input "
             "on which the proved specification scanner selects the rule proves the opposite. Every rule of every generated rule set "
             "gets one of the two verdicts (extracted checker) and is compared with flex's 'rule cannot be matched' / -s warnings; -w "
             "must silence them without changing the scanner byte for byte.",
        design="DESIGN.md section 6 C17", technique="machine-checked proof (Rocq): closure checker soundness + witnesses confirmed by the proved scanner"),
    "C18": dict(
        text="PARTIAL. Rocq theorem C18_emitted_tables_independent_of_fresh_memory (coq/Determinism.v): for EVERY sequence of operations on "
             "the generator's transition store (grow, make an entry, rewrite an owned entry, give an entry up) the emitted nxt/chk table is the "
             "same for any two contents of freshly allocated memory - it rests on the 'chk[i] == 0 ||' guard of gentabs(), as "
             "C18_unguarded_emission_would_leak shows. Byte identity of complete outputs (scanner, header, tables file) is decided by "
             "repeated runs of the rebuilt flex under perturbed allocators and environments, -o against -t, valgrind's definedness "
             "checker on a sample, and the stage1/stage2 bootstrap comparison - these runs are exploration, not proof.",
        design="DESIGN.md section 6 C18", technique="machine-checked non-interference proof (Rocq) for the transition store + differential runs under perturbed allocators"),
    "C19": dict(
        text="Rocq theorems over tables regenerated from the source on every run (harness/gen_options.py -> coq/OptionFacts.v): "
             "C19_every_tested_symbol_can_be_defined (every m4 symbol a skeleton tests with m4_ifdef is one the generator or a skeleton "
             "defines: no option is cut off from the skeleton by a misspelt symbol) and C19_cli_and_option_spelling_agree (for the 63 options "
             "that are one assignment, --name and %option name assign the same value to the same control field); finite facts proved "
             "by vm_compute, the tables' sizes are part of the statement. Observable effects are probed with small scanners: main, extra-type, "
             "noyypanic, lex-compat, prefix (nm), 20 noyy* options in both spellings with a control, yylmax, bufsize, "
             "yydecl/yyterminate/pre-action/post-action/user-init, noyyread, noyyalloc/noyyrealloc/noyyfree, header-file (program built from "
             "the header alone), bison-bridge/locations, contradictory combinations; every option with both spellings must generate "
             "byte-identical scanners.",
        design="DESIGN.md section 6 C19", technique="translator-generated tables + machine-checked finite facts (Rocq vm_compute) + effect probes (compile, nm, run)"),
    "C20": dict(
        text="Rocq theorems (coq/M4Quote.v): C20_user_code_verbatim_actions_and_blocks and C20_user_code_verbatim_top_and_section3 - for EVERY "
             "byte string u, the text flex hands to m4 for a region of user code (the m4 quotes around flex's rewriting of [[ and ]], both "
             "rewritings found in the source) expands, under a model of GNU m4's scanner with changequote([[,]]), to exactly u with m4 back "
             "outside quotes; C20_source_uses_these_strings ties the four escape strings to scan.l / main.c on every run (regenerated "
             "SourceFacts.v). The m4 model is compared with the real m4 on generated streams; specifications with recorded statements in "
             "every kind of user-code region are compiled and print text and __LINE__ of each statement: text verbatim, __LINE__ = input "
             "line (or output line and no #line at all with -L / noline), every '#line N \"out\"' numbers the following line. The #line "
             "part is validation of emitted files, not a theorem.",
        design="DESIGN.md section 6 C20", technique="machine-checked proof (Rocq) of the m4 quoting round trip + source-fact translator + text / __LINE__ read back from compiled scanners"),
}

NOT_YET = {
}

ALL = ["C%02d" % i for i in range(1, 21)]


def main():
    checks = []
    for pid in ALL:
        if pid not in CHECKS:
            continue
        c = CHECKS[pid]
        checks.append({
            "property_id": pid,
            "quick_cmd": "bin/check %s quick" % pid,
            "thorough_cmd": "bin/check %s thorough" % pid,
            "evidence_file": "evidence/%s.json" % pid,
            "replay_cmd_template": "bin/check %s --replay {path}" % pid,
            "engine": "rocq-flexv",
            "level_claimed": {"category": c.get("category", "proof"), "text": c["text"], "design_ref": c["design"]},
            "level_note": c.get("note", TB),
            "technique": c["technique"],
        })
    na = []
    for pid in ALL:
        if pid not in CHECKS:
            na.append({"property_id": pid, "reason": NOT_YET.get(pid, "no check registered yet in this revision: the Rocq model for this property is still being built (see DESIGN.md section 6 and 10)")})
    man = {
        "version": 1,
        "setup_cmd": "bin/setup",
        "hooks": {"guard": "FLEX_VERIF",
                  "enable": "no hooks are committed: checks copy the working tree of /repo and build src/flex unmodified (make -C src flex)",
                  "baseline_off_cmd": "make -C /repo check", "source_commits": [], "add_only": True},
        "engines": [{"name": "rocq-flexv", "path": "coq/", "serves_properties": sorted(CHECKS),
                     "kind_free_text": "Rocq 8.16 development (specification automaton, lock-step checker soundness, table interpreters, match loop, "
                                       "option table, ...) + extracted OCaml driver + Python correspondence harness"}],
        "checks": checks,
        "not_applicable": na,
        "notes": "fix: commits made in /repo for genuine defects are listed in KNOWN_FINDINGS.json (status fixed).",
    }
    with open(os.path.join(VERIF, "MANIFEST.json"), "w") as f:
        json.dump(man, f, indent=1)


if __name__ == "__main__":
    main()
